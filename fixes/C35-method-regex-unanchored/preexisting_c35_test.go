// Tests that fail on the UNMODIFIED tree: pre-existing deviations from C35.
// They are not part of the demonstration (demo_cmd.txt selects TestC35Demo only).
package c35_test

import (
	"crypto/aes"
	"crypto/cipher"
	"crypto/md5"
	"crypto/rand"
	"encoding/base64"
	"encoding/hex"
	"fmt"
	"net/http"
	"net/http/httptest"
	"strings"
	"testing"
	"time"

	"github.com/gauss-project/aurorafs/pkg/auth"
)

// The policy's method column is matched with an UNANCHORED regexp
// (regexMatch(r.act, p.act) -> regexp.MatchString(p.act, r.act)), so any method
// that merely CONTAINS an allowed verb is honoured: "FORGET" passes a "GET" rule.
func TestPreexistingMethodRegexUnanchored(t *testing.T) {
	a := newAuth(t)
	tok, err := a.GenerateKey("consumer", 60)
	if err != nil {
		t.Fatal(err)
	}
	for _, m := range []string{"FORGET", "GETX", "XGET", "NOTGET"} {
		ok, err := a.Enforce(tok, "/bytes/abcd", m)
		if err != nil {
			t.Fatal(err)
		}
		if ok {
			t.Errorf("consumer token honoured for method %q on /bytes/abcd (policy allows GET only)", m)
		}
	}

	reached := false
	h := auth.PermissionCheckHandler(a)(http.HandlerFunc(func(http.ResponseWriter, *http.Request) { reached = true }))
	req := httptest.NewRequest("FORGET", "/bytes/abcd", nil)
	req.Header.Set("Authorization", "Bearer "+tok)
	h.ServeHTTP(httptest.NewRecorder(), req)
	if reached {
		t.Errorf("middleware let method FORGET through with a GET-only token")
	}
}

// base64.StdEncoding is the non-strict decoder: it ignores '\r' and '\n' and the
// unused low bits of the last symbol before '=' padding. A token STRING that has
// been altered in those places decodes to the same bytes and is honoured.
func TestPreexistingAlteredTokenStringHonoured(t *testing.T) {
	a := newAuth(t)

	const alphabet = "ABCDEFGHIJKLMNOPQRSTUVWXYZabcdefghijklmnopqrstuvwxyz0123456789+/"

	var tok string
	for i := 0; i < 8; i++ { // vary the role length until the encoding is padded
		var err error
		tok, err = a.GenerateKey("consumer"+strings.Repeat("x", i), 60)
		if err != nil {
			t.Fatal(err)
		}
		if strings.HasSuffix(tok, "=") {
			break
		}
	}
	if !strings.HasSuffix(tok, "=") {
		t.Skip("could not obtain a padded token")
	}

	body := strings.TrimRight(tok, "=")
	pad := tok[len(body):]
	last := strings.IndexByte(alphabet, body[len(body)-1])
	altered := body[:len(body)-1] + string(alphabet[last^1]) + pad // flip an unused low bit
	if altered == tok {
		t.Fatal("test bug: token not altered")
	}

	if _, err := a.Enforce(altered, "/bytes/abcd", "GET"); err == nil {
		t.Errorf("token with altered last symbol was accepted:\n  issued  %s\n  altered %s", tok, altered)
	}

	withNewline := tok[:10] + "\n" + tok[10:]
	if _, err := a.Enforce(withNewline, "/bytes/abcd", "GET"); err == nil {
		t.Errorf("token with an injected newline was accepted")
	}
}

// auth.New accepts an empty encryption key (the default of --token-encryption-key)
// and derives the AES key as hex(md5("")), a public constant. Anybody can then
// mint a token, with any role including the all-powerful "master", without ever
// talking to the node.
func TestPreexistingEmptyKeyTokenForgeable(t *testing.T) {
	a, err := auth.New("", demoPassHash, nil)
	if err != nil {
		t.Fatal(err)
	}

	sum := md5.Sum(nil)
	block, err := aes.NewCipher([]byte(hex.EncodeToString(sum[:])))
	if err != nil {
		t.Fatal(err)
	}
	gcm, err := cipher.NewGCM(block)
	if err != nil {
		t.Fatal(err)
	}
	nonce := make([]byte, gcm.NonceSize())
	if _, err := rand.Read(nonce); err != nil {
		t.Fatal(err)
	}
	plain := fmt.Sprintf(`{"r":"master","e":%q}`, time.Now().Add(24*time.Hour).Format(time.RFC3339))
	forged := base64.StdEncoding.EncodeToString(gcm.Seal(nonce, nonce, []byte(plain), nil))

	ok, err := a.Enforce(forged, "/privatekey", "GET")
	if err == nil && ok {
		t.Errorf("token forged without the node (empty default key) is honoured for GET /privatekey")
	}
}

// Every rejection path of Enforce logs through a.log, but auth.New accepts a nil
// logger (the package's own tests construct it that way). A malformed token then
// crashes with a nil-pointer panic instead of being rejected with an error.
func TestPreexistingNilLoggerMalformedTokenPanics(t *testing.T) {
	a, err := auth.New(demoKey, demoPassHash, nil)
	if err != nil {
		t.Fatal(err)
	}
	defer func() {
		if r := recover(); r != nil {
			t.Errorf("Enforce panicked on a malformed token: %v", r)
		}
	}()
	if ok, err := a.Enforce("not-base64!!", "/bytes/abcd", "GET"); ok || err == nil {
		t.Errorf("malformed token: ok=%v err=%v", ok, err)
	}
}
