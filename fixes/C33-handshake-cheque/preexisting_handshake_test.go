package c33

import (
	"math/big"
	"testing"

	"github.com/gauss-project/aurorafs/pkg/settlement/traffic/cheque"
	statemock "github.com/gauss-project/aurorafs/pkg/statestore/mock"
)

// PRE-EXISTING (fails on the unmodified tree too; independent of patch.diff).
//
// Handshake() adopts a cheque that the peer hands back to us (our own last signed
// cheque that we no longer know about) through putSendCheque: the last sent cheque is
// persisted and the in-memory totals are raised. trafficInit(), however, only restores
// peers listed by GetAllRetrieveTransferAddresses() (peers with a retrieved_/transferred_
// traffic key) or by the chain. A peer that only has a traffic_last_send_cheque_ key and
// whose cheque is not cashed yet is never visited by replaceTraffic, so after a restart
// its last cheque amount and total are 0 again.
func TestPreexistingHandshakeRecoveredChequeNotRestored(t *testing.T) {
	store := statemock.NewStateStore()
	chain := newFakeChain()

	n1 := start(t, store, chain)
	recovered := cheque.SignedCheque{
		Cheque:    cheque.Cheque{Recipient: peerChain, Beneficiary: selfChain, CumulativePayout: big.NewInt(500)},
		Signature: []byte{1},
	}
	if err := n1.svc.Handshake(peerAddr, peerChain, recovered); err != nil {
		t.Fatalf("handshake: %v", err)
	}
	before := n1.sentSettlements(t)
	totalBefore, _ := n1.svc.TotalReceived(peerAddr)
	if before.Cmp(big.NewInt(500)) != 0 {
		t.Fatalf("before restart: last cheque amount = %v, want 500", before)
	}

	n2 := start(t, store, chain) // restart
	after := n2.sentSettlements(t)
	totalAfter, _ := n2.svc.TotalReceived(peerAddr)
	t.Logf("last cheque amount before=%v after=%v; consumed total before=%v after=%v", before, after, totalBefore, totalAfter)
	if after.Cmp(before) < 0 {
		t.Errorf("PRE-EXISTING C33 violation: last cheque amount restored to %v, was %v before the restart", after, before)
	}
	if totalAfter.Cmp(totalBefore) < 0 {
		t.Errorf("PRE-EXISTING C33 violation: consumed total restored to %v, was %v before the restart", totalAfter, totalBefore)
	}
}
