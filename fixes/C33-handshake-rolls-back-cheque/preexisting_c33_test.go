package c33

import (
	"context"
	"math/big"
	"sync"
	"testing"
	"time"

	"github.com/ethereum/go-ethereum/common"
	chequePkg "github.com/gauss-project/aurorafs/pkg/settlement/traffic/cheque"
)

// These tests do NOT depend on the seeded change: they fail on the unmodified tree.

// hookedChequeStore lets a test pause one caller right after it has read the
// last sent cheque from the store (= an ordinary goroutine preemption).
type hookedChequeStore struct {
	chequePkg.ChequeStore
	mu        sync.Mutex
	afterRead func()
}

func (h *hookedChequeStore) LastSendCheque(a common.Address) (*chequePkg.Cheque, error) {
	c, err := h.ChequeStore.LastSendCheque(a)
	h.mu.Lock()
	f := h.afterRead
	h.afterRead = nil
	h.mu.Unlock()
	if f != nil {
		f()
	}
	return c, err
}

// PRE-EXISTING 1: Service.Handshake decides "the peer's cheque is newer than mine"
// from chequeStore.LastSendCheque read OUTSIDE the peer lock, then takes the lock
// and overwrites both the in-memory and the persisted last cheque unconditionally
// (putSendCheque / chequeStore.PutSendCheque have no monotonicity guard).
// A Pay that completes between the read and the lock is rolled back.
//
// The peer can only present a cheque that is newer than the persisted one after a
// crash between EmitCheque and PutSendCheque in issue() (the handshake adoption
// exists to repair exactly that), so the sequence is:
//
//	run 1: cheque 100 issued+persisted; cheque 150 delivered, node dies before it is persisted
//	run 2: peer reconnects presenting 150; Handshake reads "stored = 100" and is preempted;
//	       a Pay issues, delivers and persists cheque 200; Handshake resumes and writes 150
//	run 3: restart: last cheque 150 < 200, the next Pay pays 50 a second time
func TestPreexistingHandshakeRollsBackNewerCheque(t *testing.T) {
	store := newFaultStore()
	ctx := context.Background()
	must := func(err error) {
		t.Helper()
		if err != nil {
			t.Fatal(err)
		}
	}

	// ---- run 1
	n1 := boot(t, store, nil)
	must(n1.svc.Handshake(peerOv, peerAddr, chequePkg.SignedCheque{}))
	must(n1.svc.PutRetrieveTraffic(peerOv, big.NewInt(100)))
	must(n1.svc.Pay(ctx, peerOv, big.NewInt(1))) // cheque 100
	must(n1.svc.PutRetrieveTraffic(peerOv, big.NewInt(50)))
	// crash after EmitCheque, before PutSendCheque reaches the disk
	store.setFaults("traffic_last_send_cheque_", "")
	if err := n1.svc.Pay(ctx, peerOv, big.NewInt(1)); err == nil {
		t.Fatal("setup: expected the persist of cheque 150 to fail")
	}
	store.setFaults("", "")
	held := *n1.proto.sent[len(n1.proto.sent)-1] // the peer holds cheque 150
	if held.CumulativePayout.Cmp(big.NewInt(150)) != 0 {
		t.Fatalf("setup: peer holds %v", held.CumulativePayout)
	}

	// ---- run 2
	var hook *hookedChequeStore
	n2 := boot(t, store, func(cs chequePkg.ChequeStore) chequePkg.ChequeStore {
		hook = &hookedChequeStore{ChequeStore: cs}
		return hook
	})
	readDone, release, hsDone := make(chan struct{}), make(chan struct{}), make(chan error, 1)
	hook.mu.Lock()
	hook.afterRead = func() { close(readDone); <-release }
	hook.mu.Unlock()
	go func() { hsDone <- n2.svc.Handshake(peerOv, peerAddr, held) }()
	<-readDone // Handshake has read "last sent = 100" and is descheduled

	payDone := make(chan error, 1)
	go func() {
		if err := n2.svc.PutRetrieveTraffic(peerOv, big.NewInt(50)); err != nil {
			payDone <- err
			return
		}
		payDone <- n2.svc.Pay(ctx, peerOv, big.NewInt(1)) // cheque 200, delivered and persisted
	}()
	paid := false
	select {
	case err := <-payDone:
		must(err)
		paid = true
	case <-time.After(500 * time.Millisecond):
		// Pay waits for the peer lock that Handshake holds: the interleaving is excluded
	}

	close(release) // Handshake runs on
	if !paid {
		must(<-payDone)
	}
	highest := new(big.Int).Set(n2.proto.sent[len(n2.proto.sent)-1].CumulativePayout)
	select {
	case err := <-hsDone:
		must(err)
	case <-time.After(5 * time.Second):
		t.Fatal("handshake did not finish")
	}
	t.Logf("run 2: highest cheque delivered to the peer: %v; last sent cheque recorded: %v", highest, n2.lastSent(t))

	// ---- run 3
	n3 := boot(t, store, nil)
	got := n3.lastSent(t)
	t.Logf("run 3: last sent cheque %v, consumed %v", got, n3.consumed(t))
	if got.Cmp(highest) < 0 {
		t.Errorf("C33 VIOLATION (pre-existing): last cheque amount after restart is %v, but a cheque for %v was already issued and delivered", got, highest)
	}
	must(n3.svc.Pay(ctx, peerOv, big.NewInt(1)))
	if len(n3.proto.sent) != 0 {
		t.Errorf("C33 VIOLATION (pre-existing): with no new traffic a cheque (cumulative %v) was issued again - it pays an amount that was already paid",
			n3.proto.sent[len(n3.proto.sent)-1].CumulativePayout)
	}
}
