package multicast

// PRE-EXISTING observations around C38; these fail on the UNMODIFIED tree.
// They are skipped unless C38_PREEXISTING=1 so that they do not interfere with
// the package's ordinary test run or with the C38 demonstration.

import (
	"context"
	"os"
	"testing"
	"time"

	"github.com/gauss-project/aurorafs/pkg/aurora"
	"github.com/gauss-project/aurorafs/pkg/boson"
	"github.com/gauss-project/aurorafs/pkg/boson/test"
	"github.com/gauss-project/aurorafs/pkg/multicast/model"
	"github.com/gauss-project/aurorafs/pkg/p2p"
	"github.com/gauss-project/aurorafs/pkg/subscribe"
	"github.com/gauss-project/aurorafs/pkg/topology/kademlia/mock"
	"github.com/gauss-project/aurorafs/pkg/topology/pslice"
)

func preexistingGate(t *testing.T) {
	if os.Getenv("C38_PREEXISTING") != "1" {
		t.Skip("set C38_PREEXISTING=1 to run")
	}
}

// getForward: the "kept" half iterates conn again instead of kept, so a node
// that relays for a group picks the same connected peer twice (and never a
// kept one): one forwarding round sends the message to the same peer twice.
func TestPreexistingC38_getForwardDuplicatesTarget(t *testing.T) {
	preexistingGate(t)
	s, _ := c38Service()
	a, b := test.RandomAddress(), test.RandomAddress()
	conn, kept := pslice.New(1, s.self), pslice.New(1, s.self)
	conn.Add(a)
	kept.Add(b)
	nodes := s.getForward(conn, kept)
	seen := map[string]int{}
	for _, n := range nodes {
		seen[n.String()]++
	}
	if seen[a.String()] > 1 || seen[b.String()] == 0 {
		t.Fatalf("forward targets %v: connected peer chosen %d times, kept peer chosen %d times", nodes, seen[a.String()], seen[b.String()])
	}
}

// blockingStreamer fails every stream, but only after release is closed.
type blockingStreamer struct{ release chan struct{} }

func (b blockingStreamer) fail() (p2p.Stream, error) {
	<-b.release
	return nil, errC38NoStream
}
func (b blockingStreamer) NewStream(context.Context, boson.Address, p2p.Headers, string, string, string) (p2p.Stream, error) {
	return b.fail()
}
func (b blockingStreamer) NewRelayStream(context.Context, boson.Address, p2p.Headers, string, string, string, bool) (p2p.Stream, error) {
	return b.fail()
}
func (b blockingStreamer) NewConnChainRelayStream(context.Context, boson.Address, p2p.Headers, string, string, string) (p2p.Stream, error) {
	return b.fail()
}

// HandshakeAllKept: the goroutines capture the loop variable g (go.mod says
// go 1.17, so it is shared between iterations). When the keep-ping of a peer
// of group 1 fails after the loop has moved on, the peer is removed from the
// LAST group instead of its own, so it stays listed as connected in group 1
// although it is neither reachable nor a direct neighbour.
func TestPreexistingC38_keepPingFailureRemovesFromWrongGroup(t *testing.T) {
	preexistingGate(t)
	route := &c38Route{neighbors: make(map[string]bool)}
	kad := &c38Kad{Mock: mock.NewMockKademlia()}
	st := blockingStreamer{release: make(chan struct{})}
	s := NewService(test.RandomAddress(), aurora.NewModel(), nil, st, kad, route, logger, subscribe.NewSubPub(), Option{Dev: true})

	g1 := s.newGroup(test.RandomAddress(), model.ConfigNodeGroup{GType: model.GTypeJoin})
	g2 := s.newGroup(test.RandomAddress(), model.ConfigNodeGroup{GType: model.GTypeJoin})
	peer := test.RandomAddress()
	route.set(peer, true)
	g1.add(peer, true) // connected in g1 only
	route.set(peer, false)

	go func() {
		time.Sleep(200 * time.Millisecond) // let the range loop finish first
		close(st.release)
	}()
	s.HandshakeAllKept([]*Group{g1, g2}, true)

	if got := c38Membership(g1, peer); len(got) != 1 || got[0] != "known" {
		t.Fatalf("peer whose keep-ping failed is still %v in its group (expected to be demoted to known)", got)
	}
}
