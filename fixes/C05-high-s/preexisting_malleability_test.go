// PRE-EXISTING observations (independent of the seeded change): these tests are
// expected to FAIL on the unmodified tree as well.  They are not part of the
// demonstration command (which only runs TestC06Demo*).
package c06_test

import (
	"bytes"
	"context"
	"math/big"
	"testing"

	"github.com/btcsuite/btcd/btcec"
	"github.com/gauss-project/aurorafs/pkg/boson"
	"github.com/gauss-project/aurorafs/pkg/cac"
	"github.com/gauss-project/aurorafs/pkg/crypto"
	"github.com/gauss-project/aurorafs/pkg/soc"
	"github.com/gauss-project/aurorafs/pkg/storage"
	"github.com/gauss-project/aurorafs/pkg/storage/mock"
	"github.com/gauss-project/aurorafs/pkg/traversal"
)

// The BMT hash pads the payload with zeros up to the hasher capacity and the
// span is never compared with the payload length, so a payload that is
// extended with zero bytes (or has trailing zero bytes cut off) still hashes to
// the same address.  cac.Valid and the pyramid check in
// traversal.GetChunkHashes therefore accept bytes that differ from the chunk
// that was published under the address.
func TestPreexistingZeroPaddedPayloadIsAccepted(t *testing.T) {
	orig, err := cac.New([]byte("foo"))
	if err != nil {
		t.Fatal(err)
	}
	extended := append(append([]byte{}, orig.Data()...), 0, 0, 0, 0, 0)

	if cac.Valid(boson.NewChunk(orig.Address(), extended)) {
		t.Errorf("cac.Valid accepts an extended payload (%d instead of %d bytes) for %s", len(extended), len(orig.Data()), orig.Address())
	}

	// truncated: publish "bar\x00\x00", serve "bar"
	orig2, err := cac.New([]byte("bar\x00\x00"))
	if err != nil {
		t.Fatal(err)
	}
	truncated := orig2.Data()[:boson.SpanSize+3]
	if cac.Valid(boson.NewChunk(orig2.Address(), truncated)) {
		t.Errorf("cac.Valid accepts a truncated payload for %s", orig2.Address())
	}

	// same through the pyramid path: the extended bytes get stored.
	ctx := context.Background()
	victim := mock.NewStorer()
	pyramid := map[string][]byte{orig.Address().String(): extended}
	if _, _, err := traversal.New(victim).GetChunkHashes(ctx, orig.Address(), pyramid); err == nil {
		got, gerr := victim.Get(ctx, storage.ModeGetLookup, orig.Address())
		if gerr == nil && !bytes.Equal(got.Data(), orig.Data()) {
			t.Errorf("pyramid path stored %d bytes under %s, the published chunk has %d", len(got.Data()), orig.Address(), len(orig.Data()))
		}
	}
}

// ECDSA signatures are malleable: (r, s, v) and (r, N-s, v^1) recover the same
// public key.  crypto.Recover restricts the recovery id but not s, so anybody
// can turn a single-owner chunk into a second, different byte string that
// soc.Valid accepts for the same address.
func TestPreexistingSOCSignatureMalleability(t *testing.T) {
	key, err := crypto.GenerateSecp256k1Key()
	if err != nil {
		t.Fatal(err)
	}
	signer := crypto.NewDefaultSigner(key)

	wrapped, err := cac.New([]byte("payload"))
	if err != nil {
		t.Fatal(err)
	}
	sch, err := soc.New(make([]byte, soc.IdSize), wrapped).Sign(signer)
	if err != nil {
		t.Fatal(err)
	}
	if !soc.Valid(sch) {
		t.Fatal("setup: signed SOC is not valid")
	}

	data := append([]byte{}, sch.Data()...)
	sig := data[soc.IdSize : soc.IdSize+soc.SignatureSize]
	s := new(big.Int).SetBytes(sig[32:64])
	s.Sub(btcec.S256().N, s)
	sb := s.Bytes()
	copy(sig[32:64], make([]byte, 32))
	copy(sig[64-len(sb):64], sb)
	sig[64] = 27 + ((sig[64] - 27) ^ 1)

	if bytes.Equal(data, sch.Data()) {
		t.Fatal("setup: data not altered")
	}
	if soc.Valid(boson.NewChunk(sch.Address(), data)) {
		t.Errorf("soc.Valid accepts a SOC whose signature bytes were altered by a third party (s -> N-s, v -> v^1) for %s", sch.Address())
	}
}
