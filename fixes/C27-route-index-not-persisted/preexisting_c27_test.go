//go:build c27preexisting

package routetab_test

import (
	"testing"

	"github.com/gauss-project/aurorafs/pkg/boson/test"
	"github.com/gauss-project/aurorafs/pkg/routetab"
	"github.com/gauss-project/aurorafs/pkg/routetab/pb"
	mockstate "github.com/gauss-project/aurorafs/pkg/statestore/mock"
)

// PRE-EXISTING (independent of the seeded change): Table.Delete only edits the
// in-memory route index; the persisted route_index_<target> record is never
// rewritten or removed. After a restart ResumeRoutes brings the stale routes
// back and GetNextHop offers the last hop of a path that was deleted.
func TestPreexistingC27_DeletedRouteOfferedAfterReload(t *testing.T) {
	table := routetab.NewRouteTable(test.RandomAddress(), mockstate.NewStateStore())
	a, b, n := test.RandomAddress(), test.RandomAddress(), test.RandomAddress()

	table.SavePath(&pb.Path{Items: [][]byte{a.Bytes(), b.Bytes(), n.Bytes()}})
	paths, err := table.Get(a)
	if err != nil {
		t.Fatal(err)
	}
	for _, p := range paths {
		table.Delete(p)
	}
	if next := table.GetNextHop(a); len(next) != 0 {
		t.Fatalf("before reload: unexpected next hops %v", next)
	}

	table.TableClean()
	table.ResumeRoutes()
	table.ResumePaths()

	if next := table.GetNextHop(a); len(next) != 0 {
		t.Errorf("C27 violation (pre-existing): after Delete+reload GetNextHop(a) offers %d next hop(s) of a deleted path", len(next))
	}
}

// PRE-EXISTING: the bound is only enforced relative to the current
// NeighborAlpha when saving; ResumeRoutes loads whatever was persisted, and the
// len(old) > NeighborAlpha branch of SavePath keeps NeighborAlpha+1 routes.
func TestPreexistingC27_BoundExceededAfterReloadWithSmallerAlpha(t *testing.T) {
	oldAlpha := routetab.NeighborAlpha
	defer func() { routetab.NeighborAlpha = oldAlpha }()

	table := routetab.NewRouteTable(test.RandomAddress(), mockstate.NewStateStore())
	a := test.RandomAddress()

	routetab.NeighborAlpha = 3
	for i := 0; i < 3; i++ {
		table.SavePath(&pb.Path{Items: [][]byte{a.Bytes(), test.RandomAddress().Bytes(), test.RandomAddress().Bytes()}})
	}
	routetab.NeighborAlpha = 2
	table.TableClean()
	table.ResumeRoutes()
	table.ResumePaths()
	table.SavePath(&pb.Path{Items: [][]byte{a.Bytes(), test.RandomAddress().Bytes(), test.RandomAddress().Bytes()}})

	paths, _ := table.Get(a)
	if len(paths) > int(routetab.NeighborAlpha) {
		t.Errorf("C27 violation (pre-existing): target has %d routes, configured bound %d", len(paths), routetab.NeighborAlpha)
	}
}
