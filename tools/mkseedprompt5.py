import json,subprocess,os,re,sys
tmpl=open('/tmp/seed/prompt-C31.txt').read()
props={json.loads(l)['id']:json.loads(l) for l in open('/verif/properties.jsonl')}
head,rest=tmpl.split('Property (C31:',1)
tail=rest[rest.index('\n\nTask:'):]
focus={
 'C02':'intermediate chunks holding up to 8192 child references with the subtree length as span, and a lone reference carried up unchanged',
 'C04':'the payload length window (between 8 and 256 KiB + 8 bytes) and "changing any payload byte or address byte of a valid chunk makes it invalid"',
 'C07':'seeking from the start, the current position or the end, and sequential reads neither skipping nor repeating content',
 'C20':'ordering addresses by closeness to a target agrees with comparing their XOR distances as big integers',
 'C25':'"a zero duration blocks forever", "never shortens an existing block" and "the listing of blocked peers agrees with the per-peer answer"',
 'C29':'"never repeats a peer", "at most 30 honoured" and "only peers whose proximity to the requested target is among the requested orders"',
 'C31':'cumulative payouts sent to a peer strictly increase without exceeding the traffic owed to it',
 'C33':'totals and last cheque amounts are restored to AT LEAST their values before the restart (restore as the maximum of the sources)',
 'C35':'refreshing keeps the role and cannot revive an expired token; malformed tokens are rejected with an error rather than a crash',
 'C39':'merging or clearing from byte masks, vectors built from byte slices longer than needed, and encoding to bytes and decoding back',
 'C40':'"in publication order", the namespace-wide key, and "even if it had subscribed to the same key several times"',
 'C12':'no run changes any pin count; chunks stored by local upload are never deleted',
 'C06':'chunks received as part of a file-tree (pyramid) response, and single-owner chunks',
 'C01':'encrypted content, reads at arbitrary offsets and reads after seeking',
 'C15':'repeating the unpin leaves all pin state unchanged; the reference is listed as pinned iff the last operation on it was a pin',
 'C23':'"want self" exactly when self is eligible and strictly nearer; selecting several closest peers returns distinct peers in non-decreasing distance order',
 'C24':'outbound connections to boot nodes are never counted; an unprotected inbound full node is admitted only if its bin is not oversaturated',
 'C26':'counted only while the network is available; a flag period leads to at most one blocklisting',
 'C27':'each target has at most the configured number of routes; deleted or expired paths are never returned',
 'C30':'arrives from the peer whose registered chain address is that issuer; replays and reorderings are never credited twice',
 'C32':'a request from a peer whose unsettled served traffic has reached the tolerance is refused and not recorded; the unpaid balance is never negative',
 'C34':'records from a routing underlay reply; changing the network id makes the record rejected',
 'C38':'every peer is in at most one of the connected, kept or known lists; flooding stops after each node has forwarded a message at most once',
 'C21':'iteration with early stop and skip-to-next-bin; sizes and emptiness queries',
 'C03':'hashers reused from the shared pool; many hashes at the same time; every split of the writes',
 'C05':'its address is keccak256(id || owner); parses back to the same id, owner and wrapped chunk',
 'C08':'with padding configured every ciphertext has exactly the padded length; 64 bytes per child reference for intermediate chunks',
 'C09':'directory manifests; the non-data (pyramid) chunk set used for pinning, deletion and pyramid exchange',
 'C11':'a put reports already-existed exactly for chunks already present; putting several chunks in one call equals putting them one at a time',
 'C13':'the value the store recomputes when reopened; the total does not exceed capacity when collection has quiesced',
 'C14':'pin counts equal their value before or after the interrupted operation',
 'C16':'afterwards, no unpinned chunk used only by the deleted file remains stored',
 'C17':'after the file is deleted no availability, discovery or source record remains, in memory or persisted',
 'C18':'prefix iteration visits exactly the matching keys in ascending byte order; values survive closing and reopening',
 'C19':'iteration with start item, skip-start and reverse order; vectors return their last written value, also after reopening',
 'C22':'when positive leaves at least three reachable peers at or beyond it; never exceeds the radius',
 'C28':'every recorded path consists of distinct nodes, is no longer than the hop limit, and never contains the recording node itself; route discovery terminates',
 'C36':'the file keystore; exporting then importing reproduces the key; asking again returns the same key',
 'C37':'panics deferred to later local use of state the message created; chunk discovery, pyramid exchange, multicast, cheques',
}
rnd=sys.argv[1]
for pid in sys.argv[2:]:
    p=props[pid]
    files=p['anchors']['files']
    block=f"Property ({pid}: {p['title']}):\n{p['statement']}\nQuantified over: {p['quantifier']['text']}\nFiles where the mechanism lives: {', '.join(files)}\nFor this exercise concentrate on this part of the property: {focus[pid]}."
    wt=f'/tmp/seed/wt{rnd}-{pid}'
    t=(head+block+tail).replace('/tmp/seed/wt-C31',wt).replace('C31',pid).replace('c31',pid.lower())
    t+="\n\nAdditionally (separate from your change): if, while reading the code, you notice that the UNMODIFIED code already violates this property for some input, sequence or interleaving, add a section 'PRE-EXISTING' to your final message naming the function and the concrete failing input/sequence, and — if it is cheap — a second small test (in the same demonstration directory, file name prefixed preexisting_) that fails on the unmodified code. Do not fix it and do not let it interfere with your demonstration."
    open(f'/tmp/seed/prompt{rnd}-{pid}.txt','w').write(t)
    r=subprocess.run(['git','-C','/repo','worktree','add','--detach',wt,'HEAD'],capture_output=True,text=True)
    print(pid, r.returncode)
