#!/usr/bin/env python3
"""benignlog.py — second behaviour-preserving edit class: insert a logging call (with the
function's interesting locals as arguments) at a point inside anchor functions, run the
check, undo. Developer aid."""
import subprocess, sys
CASES = [
 ("C37", "pkg/hive2/hive2.go", "\tif req.Limit > maxPeersLimit {", "\ts.logger.Tracef(\"hive2: limit %d target %x\", req.Limit, req.Target)\n\tif req.Limit > maxPeersLimit {"),
 ("C29", "pkg/hive2/hive2.go", "\tconnResult := randPeersLimit(resp.Peers, limitConn)", "\ts.logger.Tracef(\"hive2: %d candidates, skip %v\", len(resp.Peers), skip)\n\tconnResult := randPeersLimit(resp.Peers, limitConn)"),
 ("C15", "pkg/localstore/mode_set.go", "\titem.PinCounter = i.PinCounter\n\t// Decrement the pin counter or", "\titem.PinCounter = i.PinCounter\n\tdb.logger.Tracef(\"localstore: unpin %x counter %d\", item.Address, item.PinCounter)\n\t// Decrement the pin counter or"),
 ("C22", "pkg/topology/kademlia/kademlia.go", "\tk.depth = recalcDepth(k.connectedPeers, k.radius, k.peerFilter)\n\tk.depthMu.Unlock()\n\tif status == p2p.ReachabilityStatusPublic {", "\tk.depth = recalcDepth(k.connectedPeers, k.radius, k.peerFilter)\n\tk.logger.Tracef(\"kademlia: depth now %d\", k.depth)\n\tk.depthMu.Unlock()\n\tif status == p2p.ReachabilityStatusPublic {"),
 ("C05", "pkg/soc/soc.go", "func recoverAddress(signature, digest []byte) ([]byte, error) {", "func recoverAddress(signature, digest []byte) ([]byte, error) {\n\t_ = fmt.Sprintf(\"%x %x\", signature, digest)"),
 ("C12", "pkg/localstore/gc.go", "\t\t\tif addr.MemberOf(db.dirtyAddresses) {\n\t\t\t\treturn dirtyGarbageNoHandle\n\t\t\t}", "\t\t\tif addr.MemberOf(db.dirtyAddresses) {\n\t\t\t\tdb.logger.Tracef(\"localstore: gc skips dirty %s\", addr)\n\t\t\t\treturn dirtyGarbageNoHandle\n\t\t\t}"),
 ("C35", "pkg/auth/auth.go", "\tif time.Now().After(ar.Expiry) {\n\t\treturn \"\", ErrTokenExpired\n\t}", "\ta.log.Debugf(\"auth: refresh for role %s expiring %v\", ar.Role, ar.Expiry)\n\tif time.Now().After(ar.Expiry) {\n\t\treturn \"\", ErrTokenExpired\n\t}"),
 ("C27", "pkg/routetab/table.go", "\t\tlist := make(map[string]boson.Address, len(routes))", "\t\tt.logger.Tracef(\"routetab: %d routes for %s, skipping %v\", len(routes), target, skips)\n\t\tlist := make(map[string]boson.Address, len(routes))"),
 ("C32", "pkg/accounting/accounting.go", "\tunPaid := accountingPeer.unPaidTraffic", "\ta.logger.Tracef(\"accounting: unpaid %s\", accountingPeer.unPaidTraffic)\n\tunPaid := accountingPeer.unPaidTraffic"),
 ("C08", "pkg/encryption/store/decrypt_store.go", "\tc := make([]byte, length+8)", "\t_ = fmt.Sprint(length, refSize)\n\tc := make([]byte, length+8)"),
 ("C01", "pkg/file/pipeline/feeder/feeder.go", "\t\tbinary.LittleEndian.PutUint64(d[:span], uint64(sp))", "\t\t_ = fmt.Sprint(sp, f.bufferIdx, len(d))\n\t\tbinary.LittleEndian.PutUint64(d[:span], uint64(sp))"),
]
fails = 0
only = set(sys.argv[1:])
for prop, f, old, new in CASES:
    if only and prop not in only: continue
    path = "/repo/" + f
    src = open(path).read()
    if src.count(old) != 1:
        print("SKIP (pattern not unique):", prop, f); continue
    out_src = src.replace(old, new)
    if "fmt.S" in new and '"fmt"' not in src:
        out_src = out_src.replace("import (", "import (\n\t\"fmt\"", 1)
    open(path, "w").write(out_src)
    pk = "./" + "/".join(f.split("/")[:-1]) + "/"
    bld = subprocess.run(["go", "build", pk], cwd="/repo", capture_output=True, text=True)
    if bld.returncode != 0:
        print("SKIP (does not compile):", prop, f, bld.stderr.strip().split("\n")[:3])
    else:
        out = subprocess.run(["/verif/check", prop, "quick"], capture_output=True, text=True).stdout
        bad = [l for l in out.split("\n") if "VIOLATION" in l or "UNDECIDED" in l or "FLOOR-FAIL" in l or l.strip().startswith("rule ")]
        tag = "ok " if not bad else "FALSE-ALARM "
        if bad: fails += 1
        print(tag, prop, f)
        for l in bad[:4]: print("     ", l[:260])
    subprocess.run(["git", "-C", "/repo", "checkout", "--", f])
print("false alarms:", fails)
