#!/bin/sh
# mut.sh <prop[,prop]> <repo-rel-file> <python-replace-old> <new>  — apply a one-off textual
# mutation to /repo, run the check(s), restore the file. Developer aid for testing checks.
P="$1"; F="$2"; OLD="$3"; NEW="$4"
cd /repo || exit 2
python3 - "$F" "$OLD" "$NEW" <<'PY' || exit 2
import sys
f,old,new=sys.argv[1:4]
s=open(f).read()
if old not in s: print("MUT: pattern not found"); sys.exit(1)
open(f,'w').write(s.replace(old,new,1))
PY
if ! go build ./$(dirname "$F")/ 2>/tmp/mut.err; then echo "MUT: does not compile"; head -3 /tmp/mut.err; git checkout -- "$F"; exit 3; fi
for p in $(echo "$P" | tr , ' '); do /verif/check $p quick | grep -E "VIOLATION|rule|obligations|UNDECIDED|FLOOR" | cut -c1-260; done
git checkout -- "$F"
