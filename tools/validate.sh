#!/bin/sh
# validate MANIFEST.json and every evidence file against the harness schemas
python3-vt - <<'PY'
import json,jsonschema,glob
jsonschema.validate(json.load(open('/verif/MANIFEST.json')),json.load(open('/root/.vp/MANIFEST.schema.json')))
es=json.load(open('/root/.vp/EVIDENCE.schema.json'))
for f in sorted(glob.glob('/verif/evidence/C*.json')):
    jsonschema.validate(json.load(open(f)),es)
m=json.load(open('/verif/MANIFEST.json'))
ids={c['property_id'] for c in m['checks']}|{n['property_id'] for n in m.get('not_applicable',[])}
allp={json.loads(l)['id'] for l in open('/verif/properties.jsonl')}
assert ids==allp,(allp-ids,ids-allp)
print('manifest+evidence valid;',len(m['checks']),'claimed')
PY
