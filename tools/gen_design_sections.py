#!/usr/bin/env python3
"""Fill the generated parts of DESIGN.md (§4 from the rule registry via MANIFEST.json)."""
import json,re
m=json.load(open('/verif/MANIFEST.json'))
props={json.loads(l)['id']:json.loads(l) for l in open('/verif/properties.jsonl')}
out=[]
pre="Sound static decision of structural necessary clauses of the property on every CFG path of the anchored functions in /repo's current tree (not the behavioural statement as a whole). "
for c in sorted(m['checks'],key=lambda c:c['property_id']):
    pid=c['property_id']
    txt=c['level_claimed']['text']
    if txt.startswith(pre): txt=txt[len(pre):]
    out.append(f"### {pid} — {props[pid]['title']}\n*Technique:* {c['technique']}.\n\n{txt}\n")
for n in m.get('not_applicable',[]):
    out.append(f"### {n['property_id']} — {props[n['property_id']]['title']}\nNot applicable: {n['reason']}\n")
s=open('/verif/DESIGN.md').read()
s=re.sub(r'<!-- BEGIN GENERATED §4 -->.*<!-- END GENERATED §4 -->','<!-- BEGIN GENERATED §4 -->\n'+'\n'.join(out)+'<!-- END GENERATED §4 -->',s,flags=re.S)
open('/verif/DESIGN.md','w').write(s)
print('sections:',len(out))
