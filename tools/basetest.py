#!/usr/bin/env python3
"""basetest.py <repo-dir> <pkg-pattern>...  — run `go test -json` on the patterns and
compare with the stable_pass list of /root/.vp/BASELINE.json restricted to the packages
that were run. Exit 0 iff every stable test of those packages passed. (Developer aid for
validating fix: commits and seeded changes; not part of any property check.)"""
import json, os, subprocess, sys
repo = sys.argv[1]; pats = sys.argv[2:]
env = dict(os.environ, GOFLAGS="-mod=mod", GOPROXY="off", GOSUMDB="off")
p = subprocess.run(["go", "test", "-json", "-vet=off", "-count=1", "-timeout", "25m"] + pats, cwd=repo, env=env, capture_output=True, text=True)
passed, pkgs, failed = set(), set(), set()
for line in p.stdout.splitlines():
    try: e = json.loads(line)
    except Exception: continue
    if 'Package' in e: pkgs.add(e['Package'])
    if e.get('Test'):
        if e.get('Action') == 'pass': passed.add(e['Package'] + '::' + e['Test'])
        if e.get('Action') == 'fail': failed.add(e['Package'] + '::' + e['Test'])
base = json.load(open('/root/.vp/BASELINE.json'))
want = [t for t in base['stable_pass'] if t.split('::')[0] in pkgs]
missing = [t for t in want if t not in passed]
print(f"packages run: {len(pkgs)}; stable tests expected: {len(want)}; passed of those: {len(want)-len(missing)}; other failures: {len([f for f in failed if f not in want])}")
for m in missing: print("MISSING/FAILED stable test:", m)
sys.exit(1 if missing else 0)
