#!/bin/sh
# confirmseed.sh <prop-id> <worktree> <seed-name> — confirm a sub-agent's seeded change in its
# scratch worktree (demo fails with the change, passes without; stable baseline tests of the
# touched packages still pass), then archive it under /verif/seeded/<seed-name>/.
ID="$1"; WT="$2"; NAME="${3:-$1}"
export GOFLAGS=-mod=mod GOPROXY=off GOSUMDB=off
cd "$WT" || exit 2
CMD=$(cat demo_cmd.txt | grep -v '^#' | grep -v '^$' | tail -1)
echo "demo: $CMD"
git apply --check -R patch.diff 2>/dev/null || { echo "patch not applied in worktree; applying"; git apply patch.diff || exit 2; }
sh -c "$CMD" > /tmp/seed_with.log 2>&1; W=$?
git apply -R patch.diff || exit 2
sh -c "$CMD" > /tmp/seed_without.log 2>&1; WO=$?
git apply patch.diff
echo "with change: exit $W; without: exit $WO"
PKGS=$(grep '^+++ b/' patch.diff | sed 's#+++ b/##' | xargs -n1 dirname | sort -u | sed 's#^#./#')
echo "touched packages: $PKGS"
/verif/tools/basetest.py "$WT" $PKGS > /tmp/seed_base.log 2>&1; B=$?
tail -3 /tmp/seed_base.log
if [ $W -ne 0 ] && [ $WO -eq 0 ] && [ $B -eq 0 ]; then
  D=/verif/seeded/$NAME; mkdir -p $D
  cp patch.diff demo_cmd.txt $D/
  python3 - "$ID" "$WT" "$D" "$CMD" <<'PY'
import json,sys,os,shutil,subprocess
pid,wt,d,cmd=sys.argv[1:5]
try: meta=json.load(open(os.path.join(wt,'meta.json')))
except Exception as e: meta={"property":pid,"summary":"(meta.json unreadable)"}
# demonstration files = untracked files in the worktree other than the deliverables
out=subprocess.run(['git','-C',wt,'ls-files','--others','--exclude-standard'],capture_output=True,text=True).stdout.split()
demo=[f for f in out if f not in('patch.diff','meta.json','demo_cmd.txt')]
for f in demo:
    os.makedirs(os.path.join(d,'demo',os.path.dirname(f)),exist_ok=True)
    shutil.copy(os.path.join(wt,f),os.path.join(d,'demo',f))
meta['demo_files']=demo
meta['confirmed_by_me']={"demo_cmd":cmd,"with_change":"fails (exit != 0): "+open('/tmp/seed_with.log').read()[-600:],"without_change":"passes (exit 0)","existing_tests":open('/tmp/seed_base.log').read()[-300:]}
json.dump(meta,open(os.path.join(d,'meta.json'),'w'),indent=1)
print('archived',d,demo)
PY
else
  echo "NOT CONFIRMED"; tail -5 /tmp/seed_with.log; tail -5 /tmp/seed_without.log
fi
