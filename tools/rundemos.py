#!/usr/bin/env python3
"""rundemos.py [ids...] — regression aid after fix: commits. In a scratch worktree of /repo's HEAD
(under /tmp, removed afterwards) copy each archived seed's demonstration, run its demo_cmd
WITHOUT the seeded patch and report the ones that do not pass (a demonstration passes on a tree
that has the property). Developer aid; never run by a check."""
import os, shutil, subprocess, sys, json
WT = '/tmp/wtdemos'
subprocess.run(['git', '-C', '/repo', 'worktree', 'remove', '--force', WT], capture_output=True)
subprocess.run(['git', '-C', '/repo', 'worktree', 'add', '--detach', WT, 'HEAD'], check=True, capture_output=True)
env = dict(os.environ, GOFLAGS='-mod=mod', GOPROXY='off', GOSUMDB='off', GOTOOLCHAIN='local', GOWORK='off')
ids = sys.argv[1:] or sorted(d for d in os.listdir('/verif/seeded') if os.path.isdir('/verif/seeded/' + d))
bad = []
for d in ids:
    base = '/verif/seeded/' + d
    if not os.path.exists(base + '/demo_cmd.txt'):
        continue
    subprocess.run(['git', '-C', WT, 'clean', '-fdq'], check=True)
    subprocess.run(['git', '-C', WT, 'checkout', '-q', '--', '.'], check=True)
    for root, _, files in os.walk(base + '/demo'):
        for f in files:
            rel = os.path.relpath(os.path.join(root, f), base + '/demo')
            os.makedirs(os.path.dirname(os.path.join(WT, rel)) or WT, exist_ok=True)
            shutil.copy(os.path.join(root, f), os.path.join(WT, rel))
    cmd = [l for l in open(base + '/demo_cmd.txt').read().splitlines() if l.strip() and not l.startswith('#')][-1]
    try:
        p = subprocess.run(cmd, shell=True, cwd=WT, env=env, capture_output=True, text=True, timeout=1500)
        ok = p.returncode == 0
        tail = (p.stdout + p.stderr)[-400:]
    except subprocess.TimeoutExpired:
        ok, tail = False, 'TIMEOUT'
    print(('ok   ' if ok else 'FAIL ') + d, flush=True)
    if not ok:
        bad.append(d)
        print('     ' + tail.replace('\n', '\n     '), flush=True)
subprocess.run(['git', '-C', '/repo', 'worktree', 'remove', '--force', WT], capture_output=True)
print('demonstrations not passing on the current tree:', bad)
