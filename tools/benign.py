#!/usr/bin/env python3
"""benign.py — apply behaviour-preserving renames of local variables inside anchor functions of
/repo (word-boundary replace within the function's line range), run the named checks, undo.
A check that fires here is a false alarm in waiting. Developer aid; never run by a check."""
import re, subprocess, sys
CASES = [
 # (property, file, func signature prefix, [(old, new)])
 ("C23", "pkg/topology/kademlia/kademlia.go", "func (k *Kad) ClosestPeer(", [("closest", "best"), ("skipPeers", "omit")]),
 ("C29", "pkg/hive2/hive2.go", "func (s *Service) onFindNode(", [("skip", "seen"), ("limitConn", "nConn")]),
 ("C01", "pkg/file/pipeline/hashtrie/hashtrie.go", "func (h *hashTrieWriter) wrapFullLevel(", [("i", "pos"), ("sp", "total"), ("hashes", "refs")]),
 ("C01", "pkg/file/joiner/joiner.go", "func subtrieSection(", [("branchSize", "bs"), ("branches", "nb")]),
 ("C27", "pkg/routetab/table.go", "func (t *Table) GetNextHop(", [("skips", "omit"), ("list", "cand")]),
 ("C19", "pkg/shed/index.go", "func (f Index) Iterate(", [("prefix", "pfx"), ("it", "cur")]),
 ("C14", "pkg/localstore/mode_put.go", "func (db *DB) put(", [("batch", "wb"), ("gcSizeChange", "delta")]),
 ("C13", "pkg/localstore/mode_set.go", "func (db *DB) set(", [("batch", "wb")]),
 ("C36", "pkg/keystore/file/service.go", "func (s *Service) ImportKey(", [("bakFile", "saved")]),
 ("C06", "pkg/retrieval/retrieval.go", "func (s *Service) retrieveChunk(", [("chunk", "got")]),
 ("C15", "pkg/localstore/mode_set.go", "func (db *DB) setUnpin(", [("i", "cur")]),
 ("C40", "pkg/subscribe/subscribe.go", "func (s *subPub) process(", [("cSlice", "rest"), ("slice", "subs")]),
 ("C21", "pkg/topology/pslice/pslice.go", "func (s *PSlice) Add(", [("newPeers", "grown"), ("peers", "bin")]),
 ("C05", "pkg/crypto/signer.go", "func Recover(", [("btcsig", "compact"), ("v", "recid")]),
 ("C20", "pkg/boson/distance.go", "func DistanceCmp(", [("dx", "da"), ("dy", "db")]),
 ("C08", "pkg/encryption/store/decrypt_store.go", "func decryptChunkData(", [("length", "n"), ("refSize", "rs")]),
 ("C06", "pkg/traversal/traversal.go", "func (s *service) GetChunkHashes(", [("err", "rerr")]),
 ("C19", "pkg/shed/index.go", "func (db *DB) NewIndex(", [("id", "schemaPrefix")]),
 ("C27", "pkg/routetab/table.go", "func (t *Table) SavePath(", [("pathKey", "pk"), ("items", "hops")]),
 ("C28", "pkg/routetab/route.go", "func (s *Service) getNextHopRandom(", [("skips", "omit")]),
 ("C28", "pkg/routetab/route.go", "func (s *Service) GetNextHopRandomOrFind(", [("skips", "omit")]),
 ("C36", "pkg/keystore/file/service.go", "func (s *Service) ImportPrivateKey(", [("err", "rerr")]),
 ("C14", "pkg/localstore/gc.go", "func (db *DB) collectGarbage(", [("batch", "wb"), ("candidates", "cands")]),
 ("C12", "pkg/localstore/gc.go", "func (db *DB) collectGarbage(", [("addr", "root"), ("item", "cand")]),
 ("C38", "pkg/multicast/group.go", "func (g *Group) add(", [("peer", "p")]),
 ("C22", "pkg/topology/kademlia/kademlia.go", "func recalcDepth(", [("radius", "rad"), ("peers", "set")]),
 ("C31", "pkg/settlement/traffic/traffic.go", "func (s *Service) putSendCheque(", [("traffic", "tr")]),
 ("C32", "pkg/accounting/accounting.go", "func (a *Accounting) Credit(", [("accountingPeer", "ap"), ("unPaid", "due")]),
 ("C30", "pkg/settlement/traffic/cheque/chequestore.go", "func (s *chequeStore) ReceiveCheque(", [("lastCumulativePayout", "last"), ("amount", "delta")]),
 ("C25", "pkg/p2p/libp2p/internal/blocklist/blocklist.go", "func (b *Blocklist) Add(", [("duration", "dur"), ("d", "old")]),
 ("C26", "pkg/blocker/blocker.go", "func (b *Blocker) block(", [("key", "k"), ("peer", "p")]),
 ("C34", "pkg/aurora/address.go", "func ParseAddress(", [("recoveredPK", "pk"), ("recoveredOverlay", "ov")]),
 ("C35", "pkg/auth/auth.go", "func (a *Authenticator) Enforce(", [("ar", "rec"), ("decoded", "raw")]),
 ("C37", "pkg/hive2/hive2.go", "func randPeersLimit(", [("limit", "n"), ("total", "have")]),
 ("C39", "pkg/bitvector/bitvector.go", "func (bv *BitVector) set(", [("bi", "byteIdx"), ("cv", "cur")]),
 ("C09", "pkg/file/joiner/joiner.go", "func (j *joiner) processChunkAddresses(", [("cursor", "cur"), ("sec", "section")]),
 ("C07", "pkg/file/joiner/joiner.go", "func (j *joiner) ReadAt(", [("readLen", "want"), ("bytesRead", "got")]),
 ("C04", "pkg/cac/cac.go", "func Valid(", [("data", "payload")]),
 ("C03", "pkg/bmt/bmt.go", "func (h *Hasher) writeNode(", [("level", "lv"), ("s", "hashed")]),
 ("C02", "pkg/file/pipeline/feeder/feeder.go", "func (f *chunkFeeder) Write(", [("sp", "filled"), ("d", "out")]),
 ("C11", "pkg/localstore/mode_put.go", "func (db *DB) putUpload(", [("exists", "present")]),
 ("C16", "pkg/chunkinfo/chunkpyramid.go", "func (ci *ChunkInfo) getUnRepeatChunk(", [("v", "cnt")]),
 ("C17", "pkg/chunkinfo/chunkinfo.go", "func (ci *ChunkInfo) DelFile(", [("pyr", "py"), ("h", "hs")]),
 ("C18", "pkg/statestore/mock/store.go", "func (s *store) Get(", [("data", "raw")]),
 ("C24", "pkg/topology/kademlia/kademlia.go", "func (k *Kad) Connected(", [("po", "bin")]),
 ("C33", "pkg/settlement/traffic/traffic.go", "func (s *Service) PutRetrieveTraffic(", [("chainTraffic", "ct")]),
 ("C40", "pkg/subscribe/subscribe.go", "func (s *subPub) Publish(", [("slice", "subs"), ("sub", "one")]),
 # rules added in rounds 4/5
 ("C39", "pkg/bitvector/bitvector.go", "func (bv *BitVector) Equals(", [("i", "pos")]),
 ("C17", "pkg/bitvector/bitvector.go", "func (bv *BitVector) Equals(", [("i", "pos")]),
 ("C39", "pkg/bitvector/bitvector.go", "func (bv *BitVector) SetBytes(", [("i", "pos"), ("bi", "byteIdx")]),
 ("C22", "pkg/topology/kademlia/kademlia.go", "func recalcDepth(", [("shallowestUnsaturated", "cursor"), ("binCount", "cnt"), ("bin", "b")]),
 ("C19", "pkg/shed/field_uint64.go", "func (f Uint64Field) IncInBatch(", [("val", "cur")]),
 ("C19", "pkg/shed/index.go", "func (f Index) First(", [("totalPrefix", "tp")]),
 ("C31", "pkg/settlement/traffic/traffic.go", "func (s *Service) trafficPeerChequeUpdate(", [("traffic", "tr"), ("cq", "chq")]),
 ("C33", "pkg/settlement/traffic/traffic.go", "func (s *Service) trafficInit(", [("lastCheques", "sent"), ("lastTransCheques", "got"), ("allRetrieveTransfer", "addrs")]),
 ("C29", "pkg/hive2/lookup.go", "func inArray(", [("v", "want"), ("pos", "orders")]),
 ("C40", "pkg/subscribe/subscribe.go", "func (s *subPub) process(", [("info", "ev"), ("n", "pending")]),
 ("C40", "pkg/subscribe/subscribe.go", "func (s *subPub) Subscribe(", [("info", "reg")]),
 ("C38", "pkg/multicast/handshake.go", "func (s *Service) HandshakeAllKept(", [("g", "grp"), ("v", "peer")]),
 ("C15", "pkg/pinning/pinning.go", "func (s *Service) HasPin(", [("val", "stored"), ("key", "k")]),
 ("C27", "pkg/routetab/utils.go", "func generatePathItems(", [("s", "raw"), ("v", "hop")]),
 ("C27", "pkg/routetab/table.go", "func (t *Table) Delete(", [("routesNow", "kept"), ("routes", "cur")]),
 ("C21", "pkg/topology/pslice/pslice.go", "func (s *PSlice) Length(", [("ret", "total")]),
 ("C32", "pkg/accounting/accounting.go", "func (a *Accounting) Debit(", [("traff", "served"), ("tolerance", "tol")]),
 ("C12", "pkg/chunkinfo/chunkpyramid.go", "func (ci *ChunkInfo) getUnRepeatChunk(", [("v", "cnt")]),
 ("C36", "pkg/keystore/mem/service.go", "func (s *Service) Key(", [("k", "entry")]),
 ("C25", "pkg/p2p/libp2p/internal/blocklist/blocklist.go", "func (b *Blocklist) Add(", [("key", "k")]),
 # rules added in round 6
 ("C24", "pkg/topology/kademlia/kademlia.go", "func (k *Kad) connect(", [("failedAttempts", "fails"), ("quickPrune", "qp")]),
 ("C24", "pkg/topology/kademlia/kademlia.go", "func (k *Kad) Connection(", [("remove", "forget")]),
 ("C38", "pkg/multicast/kademlia.go", "func (s *Service) onMulticast(", [("key", "msgKey"), ("setOK", "fresh")]),
 ("C27", "pkg/routetab/table.go", "func (t *Table) SavePath(", [("routes", "list"), ("old", "prev")]),
 ("C37", "pkg/p2p/libp2p/internal/handshake/handshake.go", "func (s *Service) Handshake(", [("observedUnderlayAddrInfo", "seenInfo"), ("observedUnderlay", "seen")]),
 ("C31", "pkg/settlement/traffic/traffic.go", "func (s *Service) cashChequeReceiptUpdate(", [("cashInfo", "ci"), ("status", "st")]),
 ("C33", "pkg/settlement/traffic/traffic.go", "func (s *Service) Pay(", [("balance", "due"), ("traffic", "tr")]),
 ("C26", "pkg/blocker/blocker.go", "func (b *Blocker) Unflag(", [("addr", "peer")]),
 ("C28", "pkg/routetab/route.go", "func (s *Service) respForward(", [("fwd", "own"), ("res", "pend")]),
 ("C17", "pkg/chunkinfo/chunkinfodiscover.go", "func (ci *ChunkInfo) updateChunkInfo(", [("vb", "rec"), ("rc", "rootKey")]),
 ("C13", "pkg/localstore/gc.go", "func (db *DB) collectGarbage(", [("currentCollectedCount", "freed"), ("recycledItems", "gone")]),
 ("C11", "pkg/localstore/mode_put.go", "func (db *DB) setGC(", [("i", "acc"), ("gcItem", "g")]),
 ("C05", "pkg/crypto/signer.go", "func Recover(", [("btcsig", "compact")]),
 ("C06", "pkg/traversal/traversal.go", "func (s *service) GetChunkHashes(", [("bmtWriter", "bw"), ("ref", "want")]),
 # rules added in rounds 7-11
 ("C33", "pkg/settlement/traffic/traffic.go", "func (s *Service) Handshake(", [("cheque", "last"), ("isUser", "signer")]),
 ("C24", "pkg/topology/kademlia/kademlia.go", "func (k *Kad) RefreshProtectPeer(", [("peer", "list")]),
 ("C25", "pkg/p2p/libp2p/internal/blocklist/blocklist.go", "func (b *Blocklist) Peers(", [("peers", "out"), ("addr", "ov")]),
 ("C37", "pkg/chunkinfo/chunkinfodiscover.go", "func (ci *ChunkInfo) updateChunkInfo(", [("vb", "cur"), ("rc", "rootKey")]),
 ("C37", "pkg/file/joiner/joiner.go", "func (j *joiner) processChunkAddresses(", [("cursor", "pos"), ("sec", "section")]),
 ("C36", "pkg/keystore/file/key.go", "func decryptData(", [("derivedKey", "dk"), ("cipherText", "ct")]),
 ("C31", "pkg/settlement/traffic/traffic.go", "func (s *Service) TrafficInfo(", [("cashed", "c"), ("transfer", "owed")]),
 ("C18", "pkg/statestore/mock/store.go", "func (s *store) Iterate(", [("keys", "ks"), ("val", "cp")]),
 ("C23", "pkg/boson/boson.go", "func (a Address) IsZero(", [("a", "addr")]),
 ("C32", "pkg/accounting/accounting.go", "func (a *Accounting) getAccountingPeer(", [("peerData", "rec"), ("retrieve", "stored")]),
 ("C17", "pkg/retrieval/retrieval.go", "func (s *Service) retrieveChunk(", [("exists", "had")]),
 ("C07", "pkg/file/joiner/joiner.go", "func (j *joiner) ReadAt(", [("bytesRead", "got")]),
 ("C15", "pkg/localstore/mode_put.go", "func (db *DB) put(", [("exists", "had"), ("item", "it")]),
 ("C06", "pkg/encryption/store/decrypt_store.go", "func decryptChunkData(", [("c", "out"), ("length", "n")]),
 ("C30", "pkg/settlement/traffic/traffic.go", "func (s *Service) PutTransferTraffic(", [("localTraffic", "lt")]),
 ("C34", "pkg/crypto/signer.go", "func Recover(", [("p", "pub")]),
]

def func_range(lines, prefix):
    for i, l in enumerate(lines):
        if l.startswith(prefix):
            for j in range(i + 1, len(lines)):
                if lines[j].startswith("}"):
                    return i, j
    return None
fails = 0
only = set(sys.argv[1:])
for prop, f, prefix, renames in CASES:
    if only and prop not in only:
        continue
    path = "/repo/" + f
    src = open(path).read()
    lines = src.split("\n")
    rg = func_range(lines, prefix)
    if not rg:
        print("SKIP (function not found):", prop, prefix); continue
    a, b = rg
    body = "\n".join(lines[a:b + 1])
    for old, new in renames:
        body = re.sub(r"(?<![\w.])" + re.escape(old) + r"(?![\w(])", new, body)
    open(path, "w").write("\n".join(lines[:a] + body.split("\n") + lines[b + 1:]))
    pk = "./" + "/".join(f.split("/")[:-1]) + "/"
    bld = subprocess.run(["go", "build", pk], cwd="/repo", capture_output=True, text=True)
    if bld.returncode != 0:
        print("SKIP (rename does not compile):", prop, prefix, bld.stderr.strip().split("\n")[:2])
    else:
        out = subprocess.run(["/verif/check", prop, "quick"], capture_output=True, text=True).stdout
        bad = [l for l in out.split("\n") if "VIOLATION" in l or "UNDECIDED" in l or "FLOOR-FAIL" in l or l.strip().startswith("rule ")]
        tag = "ok " if not bad else "FALSE-ALARM "
        if bad: fails += 1
        print(tag, prop, prefix, renames)
        for l in bad[:4]: print("     ", l[:260])
    subprocess.run(["git", "-C", "/repo", "checkout", "--", f])
print("false alarms:", fails)
