#!/usr/bin/env python3
"""addfinding.py fixed|open <property> <rule> <key> <commit|-> <what fails...>  (developer aid; the file is never written by a check)"""
import json,sys
st,prop,rule,key,commit=sys.argv[1:6]; what=' '.join(sys.argv[6:])
f=json.load(open('/verif/known_findings.json'))
e={"property":prop,"rule":rule,"key":key,"status":st}
if st=="fixed":
    e["commit"]=commit; e["what_fails"]=f"fixed: property={prop} {commit} {what}"
else:
    e["what_fails"]=what
f=[x for x in f if x["key"]!=key]+[e]
json.dump(f,open('/verif/known_findings.json','w'),indent=1)
