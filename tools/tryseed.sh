#!/bin/sh
# tryseed.sh <patch.diff> <prop[,prop...]|all> — apply a seeded change to /repo, run the
# checks, undo it straight afterwards. Developer aid; never leaves /repo modified.
P="$1"; PROPS="$2"
cd /repo || exit 2
git diff --quiet || { echo "repo dirty"; exit 2; }
git apply "$P" || { echo "patch does not apply"; exit 2; }
if [ "$PROPS" = all ]; then
  /verif/bin/avcheck -verif /tmp/seedverif -p all -tier quick 2>&1 | grep -E "VIOLATION|  rule|UNDECIDED|FLOOR" | cut -c1-300
else
  for p in $(echo "$PROPS" | tr , ' '); do /verif/check $p quick | grep -E "VIOLATION|  rule|obligations|UNDECIDED|FLOOR" | cut -c1-300; done
fi
git checkout -- . ; git status --short | head -3
