import json,subprocess,os,re,sys
tmpl=open('/verif/tools/seedprompt.template.txt').read()
props={json.loads(l)['id']:json.loads(l) for l in open('/verif/properties.jsonl')}
head,rest=tmpl.split('Property (C31:',1)
tail=rest[rest.index('\n\nTask:'):]
def touched(pid):
    s=set()
    for d in os.listdir('/verif/seeded'):
        if d.split('-')[0]==pid and os.path.exists(f'/verif/seeded/{d}/patch.diff'):
            s|=set(re.findall(r'^\+\+\+ b/(.*)$',open(f'/verif/seeded/{d}/patch.diff').read(),re.M))
    return s
rnd=sys.argv[1]
for pid in sys.argv[2:]:
    p=props[pid]
    files=[f for f in p['anchors']['files'] if f not in touched(pid)] or p['anchors']['files']
    block=f"Property ({pid}: {p['title']}):\n{p['statement']}\nQuantified over: {p['quantifier']['text']}\nFiles where the mechanism lives: {', '.join(files)}"
    wt=f'/tmp/seed/wt{rnd}-{pid}'
    t=(head+block+tail).replace('/tmp/seed/wt-C31',wt).replace('C31',pid).replace('c31',pid.lower())
    open(f'/tmp/seed/prompt{rnd}-{pid}.txt','w').write(t)
    r=subprocess.run(['git','-C','/repo','worktree','add','--detach',wt,'HEAD'],capture_output=True,text=True)
    print(pid, files, r.returncode)
