import json,subprocess,os,re,sys
tmpl=open('/tmp/seed/prompt-C31.txt').read()
props={json.loads(l)['id']:json.loads(l) for l in open('/verif/properties.jsonl')}
head,rest=tmpl.split('Property (C31:',1)
tail=rest[rest.index('\n\nTask:'):]
focus={
 'C17':'the availability record marks a data chunk present only if that chunk is stored locally (bit positions, chunk order within the file, updates on read/retrieval and on removal of a chunk)',
 'C24':'the peers reported as connected are exactly the full nodes connected and not since disconnected (disconnections, forced disconnections, every connected peer is also known)',
 'C26':'a peer that succeeded since it was flagged, or was pruned as unseen, is never blocklisted',
 'C27':'every returned path contains the target before its last hop; next hops offered are distinct, not in the skip list, and the last hop of a stored path containing the target',
 'C28':'relayed streams are never forwarded to a node already on their path, except to deliver to the target; route discovery terminates',
 'C30':'accepted only if it names this node as recipient, carries a valid signature of its stated issuer, raises that issuer\'s cumulative payout',
 'C31':'issuing a cheque never changes the record of what peers have already cashed; the reported available balance equals on-chain balance plus cashed amounts minus total traffic owed',
 'C32':'a payment is requested whenever a credit leaves the unpaid balance at or above the threshold; unpaid balance equals credits minus notified payments',
 'C33':'under any interleaving of concurrent traffic updates the persisted totals are at least the in-memory ones; no served or consumed traffic is forgotten',
 'C34':'records accepted during the handshake: signature over underlay, overlay and network id made by a key whose overlay is the claimed one',
 'C35':'honoured only if issued with this node\'s key and not altered, not expired, and the role\'s policy allows the requested path and method',
 'C37':'handshake, peer exchange, retrieval, routing and relay, ping: no byte sequence sent by a remote peer makes the node panic',
 'C38':'within the one-minute de-duplication window a multicast message is delivered to each member\'s subscribers at most once',
 'C40':'receives every message published for that key or its namespace-wide key after its registration has taken effect',
 'C21':'contains exactly the added and not removed addresses, each once, in the bin given by its proximity to the base (capped at the last bin); iteration concurrent with mutation',
 'C22':'depends only on the current set, not on the order of connections; never exceeds the shallowest empty bin',
 'C23':'returns the connected peer nearest to the target by XOR distance among those not skipped (and reachable, when requested); not-found exactly when no peer is eligible',
 'C25':'a peer is reported blocked during every requested period, unblocked as soon as it is removed, and never beyond its latest request time plus the longest duration requested',
 'C29':'never contains the requester; never offers private-network addresses to a requester with a public address unless explicitly allowed',
 'C01':'plain content of any size and any split of the writes; the reported size equals the content length; sequential reads',
 'C07':'never reports or writes more than the buffer\'s length; returns exactly min(length, size - offset) bytes; end-of-file at or past the end',
 'C09':'traversing a stored file reports every chunk written for it and no chunk outside it (single files, including encrypted ones)',
 'C16':'deleting a file through the delete operation or by cache eviction never removes a chunk that another locally known file still needs',
 'C12':'no garbage-collection run deletes a chunk whose pin count is positive',
 'C15':'pinning marks the reference and all its chunks as pinned; unpinning returns every chunk\'s pin count to its value before the pin',
 'C36':'a different password is always rejected as invalid (both keystores); a key stored under a name and password is returned unchanged',
 'C20':'the proximity order is the number of leading equal bits capped at the maximum order, for both caps, and symmetric',
 'C18':'a value read back equals the value written, deleted keys are absent; an error returned by the iteration callback is returned to the caller',
 'C19':'lookups, existence checks, bulk fills and deletes; each named index is independent of the others',
 'C03':'every 8-byte span header and every data length up to the hasher capacity',
 'C04':'chunks created from 1 byte to 256 KiB of data are always valid',
 'C05':'a chunk is accepted as single-owner only if its signature recovers the owner its address commits to',
 'C06':'a chunk received in reply to a retrieval request is stored or handed to the requester only if it is valid for the address it is stored under',
 'C08':'decrypting the encryption with the same key gives back the payload as its prefix; the data length for leaf chunks',
 'C11':'a chunk is reported present and returned with its exact bytes iff it was put and not removed since (every put mode, lookups, pins and removals)',
 'C13':'outside a collection run the persisted counter equals the total of cached-chunk counts recorded for collectable files',
 'C14':'after reopening every chunk is either fully present with consistent bookkeeping or fully absent',
 'C39':'setting, clearing and reading bits; the all-bits-set test',
 'C02':'the reference depends only on the bytes, not on how the writes were split',
}
rnd=sys.argv[1]
for pid in sys.argv[2:]:
    p=props[pid]
    files=p['anchors']['files']
    block=f"Property ({pid}: {p['title']}):\n{p['statement']}\nQuantified over: {p['quantifier']['text']}\nFiles where the mechanism lives: {', '.join(files)}\nFor this exercise pick a part of the property and a site in the code that looks LEAST likely to have been exercised before (not the obvious single guard of the main function: think of helper functions, restart/reload paths, secondary call sites, error paths, interactions between two packages)."
    wt=f'/tmp/seed/wt{rnd}-{pid}'
    t=(head+block+tail).replace('/tmp/seed/wt-C31',wt).replace('C31',pid).replace('c31',pid.lower())
    t+="\n\nAdditionally (separate from your change, and worth at least half of your effort): read the code paths behind this property carefully and hunt for inputs, sequences or interleavings for which the UNMODIFIED code already violates it. If you find one, add a section 'PRE-EXISTING' to your final message naming the function and the concrete failing input/sequence, and — if it is cheap — a second small test (in the same demonstration directory, file name prefixed preexisting_) that fails on the unmodified code. Do not fix it and do not let it interfere with your demonstration."
    open(f'/tmp/seed/prompt{rnd}-{pid}.txt','w').write(t)
    r=subprocess.run(['git','-C','/repo','worktree','add','--detach',wt,'HEAD'],capture_output=True,text=True)
    print(pid, r.returncode)
