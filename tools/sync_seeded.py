#!/usr/bin/env python3
"""Copy the seeded-change table of seeded/README.md into DESIGN.md §8 (between the
BEGIN/END SEEDED markers) with a generated one-paragraph summary."""
import re
readme = open('/verif/seeded/README.md').read()
lines = readme.splitlines()
start = next(i for i, l in enumerate(lines) if l.startswith('| seed |'))
table = [l for l in lines[start:] if l.startswith('|')]
rows = table[2:]
first, floor, missed, never = [], [], [], []
for r in rows:
    cols = [c.strip() for c in r.strip('|').split('|')]
    seed, caught = cols[0], cols[4].lower()
    if 'not caught' in caught:
        never.append(seed)
    elif caught.startswith('yes'):
        first.append(seed)
    elif 'floor' in caught:
        floor.append(seed)
    else:
        missed.append(seed)
summary = (f"{len(rows)} confirmed changes so far; {len(first)} caught by the rules as they stood when the change arrived "
           f"({', '.join(first)}), {len(floor)} only as a floor failure ({', '.join(floor)}), {len(missed)} missed at first and now "
           f"caught by added or extended rules, {len(never)} still not caught ({', '.join(never) or 'none'}). Every added rule "
           "states a necessary clause of its property (or, where marked, a sufficient structural condition whose breach is "
           "reported for review) and was re-run on the unchanged tree (silent) and on the seeded tree (fires, naming the changed site).")
d = open('/verif/DESIGN.md').read()
new = '<!-- BEGIN SEEDED -->\n' + summary + '\n\n' + '\n'.join(table) + '\n<!-- END SEEDED -->'
d2 = re.sub(r'<!-- BEGIN SEEDED -->.*?<!-- END SEEDED -->', lambda m: new, d, flags=re.S)
open('/verif/DESIGN.md', 'w').write(d2)
print(summary)
